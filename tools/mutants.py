#!/usr/bin/env python3
"""Self-made mutation catalogue: realistic property-breaking edits of /repo, applied one at
a time to the working tree (always reverted with `git checkout`), each followed by the
quick check(s) that are supposed to see it and, with --tests, by the repository's own suite.

  tools/mutants.py            run everything
  tools/mutants.py M07 M12    run selected mutants
  tools/mutants.py --prop C12 run the mutants aimed at one property
"""
import json
import os
import subprocess
import sys
import time

REPO = "/repo"
SCRATCH = "/tmp/mut-main/repo"     # mutants are applied to a scratch copy, never to /repo
VERIF = os.path.dirname(os.path.dirname(os.path.abspath(__file__)))
TK = "src/target/trx_toolkit/"

# (id, [props], file, old, new, note)
M = [
 ("M001", ["C13"], TK + "data_msg.py", "RSSI_MAX = -47", "RSSI_MAX = -46", "RSSI upper bound off by one"),
 ("M002", ["C13"], TK + "data_msg.py", "if self.tn < 0 or self.tn > 7:", "if self.tn < 0 or self.tn > 8:", "TN 8 accepted"),
 ("M003", ["C13"], TK + "data_msg.py", "if self.ci < self.CI_MIN or self.ci > self.CI_MAX:", "if self.ci < self.CI_MIN or self.ci >= self.CI_MAX:", "C/I 1280 rejected"),
 ("M004", ["C13"], TK + "data_msg.py", "if self.tsc_set not in range(0, 2):", "if self.tsc_set not in range(0, 4):", "TSC set 2..3 accepted for non-GMSK"),
 ("M005", ["C13"], TK + "data_if.py", "\t\texcept ValueError as e:\n\t\t\tlog.error(\"Failed to encode", "\t\texcept KeyError as e:\n\t\t\tlog.error(\"Failed to encode", "send_msg lets ValueError escape"),
 ("M010", ["C12"], TK + "transceiver.py", "\t\t\t\ttrx.disable_fh()\n", "\t\t\t\tpass\n", "hopping survives POWEROFF"),
 ("M011", ["C12", "C03"], TK + "transceiver.py", "\t\t\t\ttrx.tx_queue_clear()\n", "", "queue survives POWEROFF"),
 ("M012", ["C12"], TK + "transceiver.py", "\t\t\tif not self.running and (self.clck_if in clck_links):", "\t\t\tif not self.running and (self.clck_if not in clck_links):", "clock link never removed"),
 ("M013", ["C12"], TK + "transceiver.py", "if self.child_mgt and self.child_idx == 0:", "if self.child_idx == 0:", "MS manages children although child_mgt is off"),
 ("M014", ["C12"], TK + "transceiver.py", "remote_addr, base_port + self.child_idx * 2 + 102,", "remote_addr, base_port + self.child_idx + 102,", "child DATA remote port arithmetic"),
 ("M015", ["C12"], TK + "transceiver.py", "\t\t\telif self.clck_gen.running and not clck_links:", "\t\t\telif self.clck_gen.running and not self.running:", "generator stopped while another owner still runs"),
 ("M020", ["C18"], TK + "fake_trx.py", "\t\tif msg.fn % self.burst_drop_period == 0:\n", "\t\tself.burst_drop_amount -= 1\n\t\tif msg.fn % self.burst_drop_period == 0:\n\t\t\tself.burst_drop_amount += 1\n\t\t\tself.burst_drop_amount -= 1\n\t\t\treturn True\n\t\tif False:\n", "budget decremented also on non-matching FN"),
 ("M021", ["C18"], TK + "fake_trx.py", "if period <= 0:", "if period < 0:", "period 0 accepted (later modulo by zero)"),
 ("M022", ["C18"], TK + "fake_trx.py", "\t\t\t\tself.burst_drop_amount = num\n\t\t\t\tself.burst_drop_period = 1\n", "\t\t\t\tself.burst_drop_amount = num\n", "one-argument form keeps the old period"),
 ("M023", ["C18"], TK + "fake_trx.py", "RSSI_NOISE_DEFAULT = -110", "RSSI_NOISE_DEFAULT = -109", "NOPE.ind RSSI not the noise level"),
 ("M024", ["C18"], TK + "fake_trx.py", "\t\tif self.rf_muted:\n\t\t\tmsg.nope_ind = True\n\t\telif not msg.nope_ind:", "\t\tif not msg.nope_ind:", "receiver-side RF mute ignored"),
 ("M025", ["C18"], TK + "fake_trx.py", "\t\t\tnum = int(request[1])\n\t\t\tif num < 0:\n\t\t\t\tlog.error(\"(%s) FAKE_DROP amount shall not \"\n\t\t\t\t\t\"be negative\" % self)\n\t\t\t\treturn -1\n\n\t\t\twith self.burst_drop_lock:\n\t\t\t\tself.burst_drop_amount = num\n\t\t\t\tself.burst_drop_period = 1", "\t\t\tnum = int(request[1])\n\t\t\twith self.burst_drop_lock:\n\t\t\t\tself.burst_drop_amount = num\n\t\t\t\tself.burst_drop_period = 1\n\t\t\tif num < 0:\n\t\t\t\treturn -1", "negative amount rejected after the state was changed"),
 ("M026", ["C18"], TK + "fake_trx.py", "if self.burst_drop_amount == 0:", "if self.burst_drop_amount <= 1:", "last requested burst is not dropped"),
 ("M027", ["C18"], TK + "burst_fwd.py", "\t\tif src_trx.rf_muted:\n", "\t\tif False:\n", "sender-side RF mute ignored"),
 ("M030", ["C19"], "src/target/firmware/layer1/sync.c", "ADD_MODULO(time->t1, 1, 2048);", "ADD_MODULO(time->t1, 1, 2047);", "T1 wraps one superframe early (only visible at the end of the hyperframe)"),
 ("M031", ["C19"], "src/target/firmware/layer1/sync.c", "\t\t\tif (time->t2 == 0)\n\t\t\t\tADD_MODULO(time->t1", "\t\t\tif (time->t2 == 1)\n\t\t\t\tADD_MODULO(time->t1", "T1 incremented at the wrong frame"),
 ("M032", ["C19"], "src/shared/libosmocore/src/gsm/gsm_utils.c", "return (51 * ((time->t3 - time->t2 + 26) % 26) + time->t3 + (26 * 51 * time->t1));", "return (51 * ((time->t3 - time->t2) % 26) + time->t3 + (26 * 51 * time->t1));", "recomposition wrong when T3 < T2"),
 ("M033", ["C19"], TK + "gsm_shared.py", "\t\ttc = (fn // 51) % 8\n", "\t\ttc = (fn // 52) % 8\n", "Python TC differs from C"),
 ("M034", ["C19", "C07"], TK + "gsm_shared.py", "\t\tt1 = fn // (26 * 51)\n", "\t\tt1 = fn // (26 * 51) % 1024\n", "Python T1 wraps at 1024"),
 ("M035", ["C19"], "src/target/firmware/layer1/sync.c", "\tif (delta_fn == 1) {", "\tif (delta_fn <= 2) {", "delta 2 treated as delta 1"),
 ("M040", ["C02"], TK + "burst_fwd.py", "\t\t\tif trx == src_trx:\n\t\t\t\tcontinue\n", "", "sender not skipped"),
 ("M041", ["C02"], TK + "burst_fwd.py", "\t\t\tif not trx.running:\n\t\t\t\tcontinue\n", "", "powered-off recipients served"),
 ("M042", ["C02"], TK + "transceiver.py", "\t\t(_, tx_freq) = fh.resolve(fn)", "\t\t(tx_freq, _) = fh.resolve(fn)", "hopping sender transmits on the rx frequency of the pair"),
 ("M043", ["C02"], TK + "burst_fwd.py", "if trx.get_rx_freq(rx_msg.fn) != tx_freq:", "if trx.get_rx_freq(rx_msg.fn + 1) != tx_freq:", "recipient hopping evaluated for the next frame"),
 ("M044", ["C02", "C07"], TK + "gsm_shared.py", "(mp + (t3 & self._pnm)) % ma_len", "(mp + t3 & self._pnm) % ma_len", "original precedence defect in S = (M'+T') mod N"),
 ("M045", ["C02"], TK + "transceiver.py", "\t\tfh = self.fh\n\t\tif fh is None:\n\t\t\treturn self._rx_freq", "\t\tfh = self.fh\n\t\tif fh is None or self._rx_freq is not None:\n\t\t\treturn self._rx_freq", "stale RXTUNE value preferred over the hopping sequence"),
 ("M046", ["C02"], TK + "burst_fwd.py", "\t\ttx_freq = src_trx.get_tx_freq(rx_msg.fn)\n", "\t\ttx_freq = src_trx.get_tx_freq(rx_msg.fn % 1326)\n", "sender hopping evaluated with FN modulo superframe (T1 lost)"),
 ("M050", ["C03"], TK + "transceiver.py", "\t\twith self._tx_queue_lock:\n\t\t\tfor msg in self._tx_queue:", "\t\tif True:\n\t\t\tfor msg in self._tx_queue:", "clck_tick partitions the queue without the lock"),
 ("M051", ["C03"], TK + "transceiver.py", "\tdef tx_queue_append(self, msg):\n\t\twith self._tx_queue_lock:", "\tdef tx_queue_append(self, msg):\n\t\tif True:", "append without the lock (harmless alone: append is atomic)"),
 ("M052", ["C03"], TK + "transceiver.py", "\t\t\t\tif fn_ahead == 0:", "\t\t\t\tif fn_ahead <= 1:", "burst emitted one frame early"),
 ("M053", ["C03"], TK + "transceiver.py", "\t\t\t\tfn_ahead = (msg.fn - fn) % GSM_HYPERFRAME\n", "\t\t\t\tfn_ahead = (msg.fn - fn) if msg.fn >= fn else GSM_HYPERFRAME\n", "original plain comparison at the hyperframe wrap"),
 ("M054", ["C03"], TK + "transceiver.py", "\t\tfor msg in drop:\n\t\t\tlog.warning(", "\t\tfor msg in drop[1:]:\n\t\t\tlog.warning(", "first stale burst vanishes silently"),
 ("M055", ["C03"], TK + "transceiver.py", "\t\t\t\t\tdrop.append(msg)\n\n\t\t\tself._tx_queue = wait\n", "\t\t\t\t\tdrop.append(msg)\n\n\t\tself._tx_queue = wait\n", "queue replaced after the lock was released"),
 ("M056", ["C03"], TK + "transceiver.py", "\t\t\t\t\temit.append(msg)\n", "\t\t\t\t\temit.append(msg)\n\t\t\t\t\tif len(self._tx_queue) > 2:\n\t\t\t\t\t\twait.append(msg)\n", "burst kept after emission when three are queued (late duplicate / stale report)"),
 ("M057", ["C03"], TK + "transceiver.py", "\tdef tx_queue_clear(self):\n\t\twith self._tx_queue_lock:\n\t\t\tself._tx_queue.clear()", "\tdef tx_queue_clear(self):\n\t\twith self._tx_queue_lock:\n\t\t\tself._tx_queue = self._tx_queue[:0] if len(self._tx_queue) != 1 else self._tx_queue", "POWEROFF keeps a single queued burst"),
 ("M058", ["C03"], TK + "transceiver.py", "\t\t# Enqueue the message, it will be sent later\n\t\tself.tx_queue_append(msg)", "\t\t# Enqueue the message, it will be sent later\n\t\tq = self._tx_queue\n\t\tq.append(msg)", "arrival appends to a stale reference of the queue list, bypassing the lock"),
 ("M060", ["C05"], TK + "ctrl_if_trx.py", "\t\t\tif self.trx.running:\n\t\t\t\tlog.error(\"(%s) Transceiver already started\"", "\t\t\tif False:\n\t\t\t\tlog.error(\"(%s) Transceiver already started\"", "POWERON accepted while running"),
 ("M061", ["C05"], TK + "data_if.py", "for ver in Msg.KNOWN_VERSIONS[::-1]:", "for ver in Msg.KNOWN_VERSIONS:", "SETFORMAT suggests the lowest instead of the highest supported version"),
 ("M062", ["C05"], TK + "ctrl_if_trx.py", "if ver_req < 0 or ver_req > Msg.CHDR_VERSION_MAX:", "if ver_req < 0 or ver_req >= Msg.CHDR_VERSION_MAX:", "SETFORMAT 15 answered -1"),
 ("M063", ["C05"], TK + "ctrl_if.py", "\t\tself.sendto(response, remote)", "\t\tself.send(response)", "reply sent to the configured peer instead of the sender"),
 ("M064", ["C05"], TK + "ctrl_if.py", "response = \"RSP \" + \" \".join(request) + \"\\0\"", "response = \"RSP \" + \" \".join(request)", "reply without the terminating NUL"),
 ("M065", ["C05", "C10"], TK + "fake_trx.py", "\t\t\tself.toa256_base += int(request[1])", "\t\t\tself.toa256_base = int(request[1])", "relative FAKE_TOA form treated as absolute"),
 ("M066", ["C05"], TK + "fake_trx.py", "\t\t\tif threshold < 0:\n\t\t\t\tself.fake_rssi_enabled = False\n\t\t\t\treturn 0\n", "", "negative FAKE_RSSI threshold no longer disables the simulation"),
 ("M067", ["C05", "C18"], TK + "ctrl_if_trx.py", "self.trx.rf_muted = int(request[1]) > 0", "self.trx.rf_muted = int(request[1]) > 1", "RFMUTE 1 does not mute"),
 ("M068", ["C05"], TK + "ctrl_if_trx.py", "return (0, [str(self.trx.tx_power_base)])", "return (0, [str(self.trx.tx_power)])", "NOMTXPOWER reports power minus attenuation"),
 ("M069", ["C05"], TK + "fake_pm.py", "\t\t\tif not trx.running:\n\t\t\t\tcontinue\n", "", "MEASURE sees powered-off transceivers"),
 ("M06A", ["C05"], TK + "ctrl_if.py", "self.sock.recvfrom(1024)", "self.sock.recvfrom(128)", "original 128-octet TRXC receive buffer"),
 ("M06B", ["C05", "C10"], TK + "fake_trx.py", "msg.toa256 -= src_trx.ta * 256", "msg.toa256 += src_trx.ta * 256", "timing advance applied with the wrong sign"),
 ("M06C", ["C05", "C10"], TK + "ctrl_if_trx.py", "self.trx.tx_att_base = att_req", "self.trx.tx_att_base = 0", "SETPOWER ignored"),
 ("M06D", ["C05"], TK + "ctrl_if_trx.py", "\t\t\tif not self.trx.ready:\n\t\t\t\tlog.error(\"(%s) Transceiver is not ready\"", "\t\t\tif self.trx._rx_freq is None and self.trx.fh is None:\n\t\t\t\tlog.error(\"(%s) Transceiver is not ready\"", "POWERON accepted with only RXTUNE done"),
 ("M070", ["C10"], TK + "fake_trx.py", "msg.rssi = src_trx.tx_power - src_msg.pwr - self.PATH_LOSS_DEFAULT", "msg.rssi = src_trx.tx_power + src_msg.pwr - self.PATH_LOSS_DEFAULT", "burst attenuation added instead of subtracted"),
 ("M071", ["C10"], TK + "gsm_shared.py", "nb_seq = burst[3 + 57 + 1:][:26]", "nb_seq = burst[3 + 57:][:26]", "normal-burst training sequence looked up one bit early"),
 ("M072", ["C10"], TK + "gsm_shared.py", "\"01001110101100000100111010\"", "\"01001110101100000100111011\"", "NB_TS5 mistyped in its last bit"),
 ("M073", ["C10"], TK + "burst_fwd.py", "tx_msg = rx_msg.trans(ver = trx.data_if._hdr_ver)", "tx_msg = rx_msg.trans(ver = src_trx.data_if._hdr_ver)", "header version taken from the sender"),
 ("M074", ["C10"], TK + "transceiver.py", "self.data_if.send_msg(msg, legacy = True)", "self.data_if.send_msg(msg, legacy = False)", "legacy padding omitted"),
 ("M075", ["C10", "C01", "C04"], TK + "data_msg.py", "_tab_ubit2sbit = array('b', [-127 if b else 127  for b in range(0x100)])", "_tab_ubit2sbit = array('b', [-126 if b else 127  for b in range(0x100)])", "transmitted 1 arrives as -126 instead of full confidence"),
 ("M076", ["C10"], TK + "fake_trx.py", "\t\tmsg.ci = self.ci\n", "\t\tmsg.ci = self.ci if self.ci_rand_threshold == 0 else self.ci + 2 * self.ci_rand_threshold\n", "C/I drawn outside its window when randomised"),
 ("M077", ["C10"], TK + "gsm_shared.py", "AB_TS0 = (0, BurstType.ACCESS, \"01001011011111111001100110101010001111000\")", "AB_TS0 = (0, BurstType.ACCESS, \"01001011011111111001100110101010001111001\")", "AB_TS0 mistyped (detection falls back to TSC 0 anyway; only the generator check can see it)"),
 ("M078", ["C10"], TK + "fake_trx.py", "\t\tif src_trx.ta != 0:\n\t\t\tmsg.toa256 -= src_trx.ta * 256", "\t\tif self.ta != 0:\n\t\t\tmsg.toa256 -= self.ta * 256", "timing advance of the recipient applied instead of the sender's"),
 ("M079", ["C10"], TK + "fake_trx.py", "\t\t\tmsg.tsc_set = ss.tsc_set if ss is not None else 0", "\t\t\tmsg.tsc_set = ss.tsc_set + (ss.bt is BurstType.SYNC) if ss is not None else 0", "sync bursts reported with TSC set 1"),
 ("M080", ["C09"], TK + "clck_gen.py", "\t\t\tt_next += t_tick\n", "\t\t\tt_next = time.monotonic_ns() + t_tick\n", "deadline measured from the end of the previous handler (drift)"),
 ("M081", ["C09"], TK + "clck_gen.py", "\t\t\t\tt_next = time.monotonic_ns()\n\t\t\t\tdt = 0", "\t\t\t\tdt = 0", "no resynchronisation after an overrun (catch-up ticks)"),
 ("M082", ["C09"], TK + "clck_gen.py", "self.clck_src = (self.clck_src + 1) % GSM_HYPERFRAME", "self.clck_src = (self.clck_src + 1) % (GSM_HYPERFRAME + 1)", "frame counter wraps one frame late"),
 ("M083", ["C09"], TK + "clck_gen.py", "if self.clck_src % self.ind_period == 0:", "if self.clck_src % self.ind_period == self.ind_period - 1:", "indications sent at the wrong residue"),
 ("M084", ["C09"], TK + "clck_gen.py", "\t\tself.clck_src = self.clck_start\n", "\t\tif not hasattr(self, 'clck_src'):\n\t\t\tself.clck_src = self.clck_start\n", "frame counter not reset by a restart"),
 ("M085", ["C09"], TK + "clck_gen.py", "\t\t\tfor link in list(self.clck_links):", "\t\t\tfor link in list(self.clck_links)[:1]:", "indication sent to the first link only"),
 ("M086", ["C09"], TK + "clck_gen.py", "\t\t\tif dt < 0:", "\t\t\tif dt < -t_tick:", "overruns shorter than a frame are not resynchronised"),
 ("M087", ["C09"], TK + "clck_gen.py", "\t\tself._breaker.clear()\n", "", "breaker not cleared by stop(): restarted generator never ticks"),
 ("M090", ["C14"], TK + "ctrl_if.py", "\t\ttry:\n\t\t\tdata = data.decode()\n\t\texcept UnicodeDecodeError:\n\t\t\tlog.error(\"Non-text data on TRXC interface\")\n\t\t\treturn\n", "\t\tdata = data.decode()\n", "original: non-UTF-8 control datagram raises out of the main loop"),
 ("M091", ["C14"], TK + "ctrl_if.py", "\t\texcept ValueError:\n\t\t\tlog.error(\"Malformed TRXC command", "\t\texcept KeyError:\n\t\t\tlog.error(\"Malformed TRXC command", "original: non-numeric argument raises out of the main loop"),
 ("M092", ["C14"], TK + "data_msg.py", "\t\tif len(msg) < self.HDR_LEN:\n\t\t\traise ValueError(\"Message is to short: missing version specific header\")\n", "", "short datagrams reach the header parser (IndexError / struct.error instead of ValueError)"),
 ("M093", ["C14"], TK + "data_dump.py", "\t\t\tmsg.parse_msg(msg_raw)\n\t\texcept:\n", "\t\t\tmsg.parse_msg(msg_raw)\n\t\texcept IndexError:\n", "capture reader lets parser errors escape"),
 ("M094", ["C14"], TK + "fake_trx.py", "\t\t\t(base, threshold) = (int(request[1]), int(request[2]))\n\t\t\tif threshold < 0:\n\t\t\t\tlog.error(\"(%s) FAKE_TOA threshold shall not \"\n\t\t\t\t\t\"be negative\" % self)\n\t\t\t\treturn -1\n\n\t\t\t# Apply both base and threshold\n\t\t\tself.toa256_base = base\n\t\t\tself.toa256_rand_threshold = threshold", "\t\t\tself.toa256_base = int(request[1])\n\t\t\tthreshold = int(request[2])\n\t\t\tif threshold < 0:\n\t\t\t\treturn -1\n\t\t\tself.toa256_rand_threshold = threshold", "FAKE_TOA applies the base before the threshold is parsed / validated"),
 ("M095", ["C14", "C03"], TK + "data_if.py", "\t\tif not self.match_hdr_ver(msg):\n\t\t\treturn None\n\n\t\treturn msg\n\n\tdef recv_rx_msg", "\t\tself.match_hdr_ver(msg)\n\n\t\treturn msg\n\n\tdef recv_rx_msg", "bursts with a non-negotiated header version are queued"),
 ("M096", ["C14", "C12"], TK + "transceiver.py", "\t\t\t\t\"is not running => dropping...\" % (self, msg.desc_hdr()))\n\t\t\treturn None\n", "\t\t\t\t\"is not running => dropping...\" % (self, msg.desc_hdr()))\n", "bursts are queued while powered off"),
 ("M097", ["C14"], TK + "data_dump.py", "\t\tif len(hdr_raw) != self.HDR_LENGTH:\n\t\t\treturn None\n\n\t\t# Attempt to parse it\n\t\trc = self.parse_hdr(hdr_raw)\n\t\tif rc is False:\n\t\t\tlog.error(\"Couldn't parse a message header\")\n\t\t\treturn None\n\n\t\t# Expand the header\n\t\t(msg, msg_len) = rc", "\t\tif len(hdr_raw) == 0:\n\t\t\treturn None\n\n\t\t# Attempt to parse it\n\t\trc = self.parse_hdr(hdr_raw)\n\t\tif rc is False:\n\t\t\tlog.error(\"Couldn't parse a message header\")\n\t\t\treturn None\n\n\t\t# Expand the header\n\t\t(msg, msg_len) = rc", "capture reader parses a cut header (struct.error on a 1-2 octet tail)"),
]


def sh(cmd, **kw):
    return subprocess.run(cmd, shell=True, capture_output=True, text=True, **kw)


def apply(file, old, new):
    p = os.path.join(SCRATCH, file)
    s = open(p).read()
    if s.count(old) < 1:
        return False
    open(p, "w").write(s.replace(old, new, 1))
    return True


def main():
    args = [a for a in sys.argv[1:] if not a.startswith("--")]
    tests = "--tests" in sys.argv
    prop = None
    if "--prop" in sys.argv:
        prop = sys.argv[sys.argv.index("--prop") + 1]
        args = [a for a in args if a != prop]
    sh("rm -rf /tmp/mut-main && mkdir -p /tmp/mut-main && rsync -a --exclude .git %s/ %s/" % (REPO, SCRATCH))
    env = dict(os.environ, VERIF_REPO=SCRATCH)
    rows = []
    for mid, props, file, old, new, note in M:
        if args and mid not in args:
            continue
        if prop and prop not in props:
            continue
        try:
            if not apply(file, old, new):
                print("%s: pattern not found in %s" % (mid, file))
                rows.append((mid, "PATTERN-MISSING"))
                continue
            res = {}
            for p in props:
                t = time.time()
                r = sh("./check %s --tier quick" % p, cwd=VERIF, timeout=3600, env=env)
                caught = r.returncode == 1 and "VIOLATION property=%s" % p in r.stdout
                res[p] = "caught" if caught else ("rc=%d" % r.returncode)
                if not caught:
                    print(r.stdout[-1500:], r.stderr[-1500:])
                res[p] += " %.0fs" % (time.time() - t)
            tr = ""
            if tests:
                r = sh("cd %s && /venv/bin/python -m pytest -q -p no:cacheprovider --timeout=900 2>&1 | tail -1" % SCRATCH)
                tr = " | suite: " + r.stdout.strip()
            print("%s %-60s %s%s" % (mid, note, json.dumps(res), tr), flush=True)
            rows.append((mid, res))
        finally:
            sh("rsync -a --exclude .git --exclude __pycache__ %s/%s %s/%s" % (REPO, file, SCRATCH, file))
    sh("rm -rf /tmp/mut-main")
    return 0


if __name__ == "__main__":
    sys.exit(main())

#!/usr/bin/env python3
"""Generates /verif/MANIFEST.json from the table below (single source of truth)
and validates it against /root/.vp/MANIFEST.schema.json when available."""
import json
import os
import sys

HERE = os.path.dirname(os.path.dirname(os.path.abspath(__file__)))

# id -> (level category, technique, level text, level note, design ref, engine)
CHECKS = {
 "C13": ("exploration",
         "bounded-exhaustive enumeration of boundary-value field assignments against a range predicate",
         "Complete product over the dependent field cluster (version x NOPE x modulation x TSC set x TSC x C/I x burst "
         "length) and boundary sweeps / complete 8^4 products of the independent fields, for Tx and Rx, through "
         "validate(), gen_msg() and DATAInterface.send_msg() of the tree (each with and without the call site's legacy-padding flag); every "
         "off-by-one in any range comparison flips at least one enumerated point; the same message object is re-assigned and re-encoded "
         "across the boundary product.",
         "Integer/None field values only; reference predicate transcribed from the property statement; fake UDP socket.",
         "DESIGN.md 2/C13", "enum+world"),
 "C12": ("model_checking",
         "explicit-state BFS over TRXC command histories on the real Application, reference-model oracle, probe script in every state",
         "Every state of the power/tuning/hopping/clock-link machine reachable by POWERON/POWEROFF/RXTUNE/TXTUNE/SETFH "
         "addressed to any transceiver is visited for several application configurations (children of BTS and MS, extra "
         "transceivers, other base ports); each transition's reply and each state's clock indications, burst acceptance, "
         "routing and queue-forgetting POWEROFF cycle (also through the parent of a managed child) are compared with a reference model; the frontier "
         "is exhausted; the documented UDP port plan is checked at every application start; power commands racing a tick of the real clock "
         "generator are explored as thread schedules (preemption bound 1 quick / 2 thorough).",
         "Clock thread replaced by direct send_clck_ind() calls (liveness observed on the fake Thread object); one shared "
         "carrier; untuned-but-running children not judged for routing.",
         "DESIGN.md 2/C12", "world+explore"),
 "C18": ("model_checking",
         "explicit-state BFS over FAKE_DROP/RFMUTE/burst histories on the real Application, set-valued reference model",
         "All states of the (drop budget, period, mute flags) machine reachable with the command alphabet (legal and illegal "
         "FAKE_DROP forms, RFMUTE on either side) are visited for the four header-version pairs; in every state every "
         "command and a burst at each probe frame number is executed on the real code and the datagram on the recipient's "
         "DATA port (burst / NOPE.ind / nothing) is compared with the reference; frontier exhausted.",
         "Clock handler called directly with the burst's frame number; budget use by muted bursts left open (both accepted).",
         "DESIGN.md 2/C18", "world+explore"),
 "C19": ("model_checking",
         "complete walk of the 2 715 648-state frame counter; every (state, delta) transition executed on the compiled C code",
         "All frame numbers of the hyperframe are visited; l1s_time_inc (firmware sync.c, compiled unmodified for the host) is "
         "applied from every state for every delta of the quantifier's set (thorough: every delta 0..2652 and the large ones), "
         "gsm_fn2gsmtime/gsm_gsmtime2fn (tree's gsm_utils.c) are checked in every state, and the Python fn2gsm_time is compared "
         "with the C decomposition for every frame number, plus a fixed non-monotonic call sequence (wrap, steps back over superframe "
         "boundaries, interleaved streams) for order independence.",
         "Host x86-64 build under ASan/UBSan; expected values from independent division arithmetic in the driver.",
         "DESIGN.md 2/C19", "cbuild"),
 "C02": ("model_checking",
         "explicit-state BFS over tuning/hopping/power histories on the real Application; probe bursts from every sender in every state; reference hopping model",
         "The reachable configurations of 3-5 transceivers under {tune, SETFH variants (cyclic and pseudo-random, 1-5 channels), POWERON, POWEROFF} "
         "are exhausted; in every state every running sender transmits at every probe frame number (covering T1/T2/T3 carries and the end of "
         "the hyperframe) and the set of datagrams on all L1 DATA ports must equal the reference recipients; repeated for several header "
         "version / mute assignments; the probe is repeated after a power cycle and after re-SETFH at the same frame number; recipient-side "
         "power/hopping/tuning commands racing the forwarding tick are explored as thread schedules.",
         "Clock handler called with the probe frame number; untuned-but-running children not judged; default attenuation.",
         "DESIGN.md 2/C02", "world+explore"),
 "C03": ("model_checking",
         "explicit-state BFS over arrival/tick/power/format histories + exhaustive thread-interleaving exploration (iterative preemption bounding) with a linearizability oracle",
         "Histories: all sequences up to the stated depth/queue bound from start frames 0 and 2715644 (across the wrap) on the real Application, "
         "every tick's datagrams and stale reports compared with the fate model. Schedules: two real threads (main-loop dispatch of 1-2 "
         "arrivals/power commands vs. one clock handler call) interleaved at every shared attribute access / iteration / lock operation up to the "
         "preemption bound, 80 scenarios; each execution's observation must equal some sequential order of the operations.",
         "Bounds: depth and queue size for histories; 2 threads, <=2 socket operations, preemption bound 2/1 (quick) 3/2 (thorough).",
         "DESIGN.md 2/C03, 1.5", "world+explore+sched"),
 "C05": ("model_checking",
         "explicit-state BFS over TRXC command histories on the real Application with a full-alphabet fan-out in every state, reference-model oracle, behavioural probe per state",
         "From 10 seeded prior states every command of a 121-entry alphabet (all verbs, argument counts 0..3 and the 130-argument SETFH, boundary values, "
         "with/without NUL, second source address, non-CMD datagrams) is fired in every state reachable within the depth bound; each reply is compared "
         "with the documented form/status, and each state's effects are observed by NOMTXPOWER/MEASURE/POWERON and bursts in both directions with a "
         "freshly tuned peer at both ends of every random window.",
         "Well-formed integer commands only; depth bound 2 (quick) / 3 (thorough) beyond the seeds; trxcon leg separate.",
         "DESIGN.md 2/C05", "world+explore"),
 "C10": ("exploration",
         "bounded-exhaustive product of sender/recipient simulation settings x header versions x window ends x burst sets on the real Application, reference-decoder oracle",
         "Complete product of the enumerated SETPOWER/SETTA/FAKE_TOA/FAKE_RSSI/FAKE_CI settings, version pairs and both ends of every random "
         "window with representative bursts and attenuations, plus every training sequence of every burst type, the generator's own outputs and a "
         "walking bit through every position at default settings; each datagram on the recipient's DATA port is decoded by the reference layout and "
         "compared field by field with the reference model; the generator's planted sequences are compared with the specification constants.",
         "Windows explored at both ends only; TSC judged only for bursts with exactly one recognisable training sequence.",
         "DESIGN.md 2/C10", "world+enum"),
 "C09": ("model_checking",
         "exhaustive execution of the real clock worker under a virtual clock for all handler-duration x lateness scripts up to length L, with stop/start at every position, plus stop() overlapping a busy handler with the worker in a real thread under a one-baton scheduler; reference-clock oracle",
         "Every script of length L (5 quick / 6 thorough) over 6 handler durations (below, at and above one frame) x 2 wake-up latenesses is run on the "
         "real CLCKGen.start/_worker/send_clck_ind/stop; every handler invocation time, frame number and indication datagram is compared with a "
         "reference clock in integer nanoseconds; repeated over start frames {0,1,2715646,2715647} x periods {1,2,51,102} x 0..2 links and with "
         "stop()/start() arriving before, during and at the end of a wait after every script prefix; plus two generator objects in one process "
         "(one lives its whole life while the other waits); periods 7/13/100/1000 (not dividing the hyperframe) run from the last multiple below the "
         "wrap through it; stop() arriving inside a handler call of 2.3 ms .. 12 s (70 s thorough) followed by start(), worker in a real thread, "
         "join timeouts on the virtual clock (72 / 240 scenarios).",
         "Virtual time; worker body run synchronously for the script product (Event.wait is its only blocking point), in a baton-controlled real thread "
         "for the stop-during-handler leg; frame period taken from the implementation within 1 us.",
         "DESIGN.md 2/C09", "world"),
 "C14": ("fault_enumeration",
         "exhaustive fault enumeration: every (session position x catalogue mutant) through the real main loop, differential against the reference model for the rest of the session",
         "For 3 valid sessions every position x every mutant of the valid datagram there (all truncations, header octet values, all bits of the first "
         "11 octets, version nibbles, argument faults, NUL/case variants) is injected through Application.run(); no exception may escape, "
         "unacceptable datagrams must change nothing and emit nothing, clearly malformed commands must be ignored or answered with a non-zero "
         "status, and the rest of the session must match the reference model (argument faults are also sent in place of the valid command and "
         "the rest of the session must survive); plus all strings of length <= 5 over a 7-octet alphabet on both "
         "sockets, every data mutant through Tx/RxMsg.parse_msg (ValueError only) and every single-octet corruption/truncation of a capture file.",
         "The harness's strict grammar decides what is 'clearly malformed'; unclassifiable inputs are judged for crash-freedom/liveness only.",
         "DESIGN.md 2/C14", "world+enum"),
 "C20": ("exploration",
         "bounded-exhaustive enumeration of cell allocations x bitmap lengths x bitmaps inside an ASan/UBSan C driver around the sliced function, reference decoder oracle",
         "gsm48_decode_mobile_alloc is cut out of the current sysinfo.c at run time and compiled with exact-size heap buffers; all bitmaps up to 2 octets, "
         "structural bitmaps up to 9 octets (thorough: all 3-octet bitmaps, pairs and triples of bits) over 148+ cell allocations with and without "
         "ARFCN 0 and both si4 values are decoded and compared with a reference decoder written from TS 44.018 10.5.2.21 (cross-checked by a second "
         "Python formulation); any sanitizer death is a violation with the concrete input.",
         "Function slice (the rest of sysinfo.c needs libraries absent from the sandbox); vla-bound check off (zero-length VLA for len 0 is not an access).",
         "DESIGN.md 2/C20, 1.2", "cbuild"),
 "C07": ("exploration",
         "complete enumeration of the hopping generator's finite input domain on three implementations (spec transcription, firmware rfch.c in an ASan/UBSan driver, Python HoppingParams)",
         "Firmware: all HSN 0..63 x N 1..64 x MAIO {0,1,N-1,63} x the 84 864 frame numbers of a complete T1R cycle plus the last superframe of the "
         "hyperframe (1.4e9 calls of rfch_get_params); Python: the reduced space (HSN xor T1R, T2, T3, N, MAIO) completely, compared three ways, with "
         "the reduction itself checked on the real code (quick: 8 values of N, thorough: the complete unreduced space); HSN 0 with all MAIO; rx/tx pair "
         "selection through the real SETFH handler.",
         "Reference RNTABLE carried by the harness; host build of rfch.c with l1s defined by the driver.",
         "DESIGN.md 2/C07", "cbuild+enum"),
 "C11": ("exploration",
         "complete enumeration of both multiframe tables: firmware mframe_schedule() stepped through full 51x26x8 cycles per task, trxcon layouts looked up for every (config, tn, fn); correspondence-table oracle",
         "Every firmware task is run alone through complete 10 608-frame cycles (first and last cycle of the hyperframe; thorough 8 cycle bases) with a "
         "recording tdma_schedule_set stub; every trxcon (channel combination, timeslot) layout and every frames[fn % period] entry is read under ASan; "
         "block-start / per-frame sets are compared for all 328 (task, direction, timeslot) triples, bid cycles, lchan_mask and slotmask are checked "
         "for every layout; the SACCH phase of every TCH layout is compared with the per-timeslot rule of TS 45.002; the tree's real sched_trx.c is "
         "driven for every (combination, timeslot): configure (a channel state for every channel owning a frame), every frame number of a cycle, "
         "the hyperframe wrap and every (phase, length) loss pattern, each callback compared with the layout.",
         "Correspondence table (firmware task <-> trxcon lchan) is part of the harness; sched_mframe.c built against two stand-in system headers; UBSan shift check off for 1<<31 in mframe_schedule.",
         "DESIGN.md 2/C11", "cbuild"),
 "C06": ("model_checking",
         "explicit-state BFS in C over the real sercomm.c static state (send / pull+feed / noise / over-long events, replay from reset, state fingerprints) plus exhaustive transparency sweeps; per-DLCI FIFO reference",
         "Several alphabets explored to a fixpoint (depth 14-18) and the design's full alphabet to its depth bound on the unmodified HOST_BUILD sercomm.c "
         "linked with the tree's msgb.c/talloc.c under ASan/UBSan; every payload of length 0-2 over all 256 octet values, lengths 3-6(7) over the "
         "special-octet alphabet and the boundary lengths 2045-2048 on all 128 DLCIs; 56 160 resync scenarios (over-long frames x noise x following "
         "frames); handlers registered on subsets of the DLCIs, 255-512 message backlogs, and 1-3 discarded frames of up to 2047 octets to a "
         "handler-less DLCI followed by a long frame to a registered one; wire rules checked on every pulled octet.",
         "Sequential use only (interrupt-level atomicity on the ARM target is out of reach); states compared by 128-bit fingerprint; DLCI 128 echo modelled as re-queue.",
         "DESIGN.md 2/C06", "cbuild"),
 "C08": ("model_checking",
         "explicit-state BFS in C over the real l1s.tdma_sched (schedule / schedule_set / execute+advance / execute / reset, <=K outstanding items, ring position kept) plus exhaustive order and capacity sweeps",
         "All states reachable with up to K outstanding items over all 25 offsets and 8 priorities (incl. INT16 extremes), five set shapes and a "
         "re-scheduling callback are visited on the unmodified tdma_sched.c (4.9e6 states quick, 1.2e8 thorough, frontiers exhausted); every frame step is "
         "compared with a frame->multiset reference; all rank assignments of up to 8 priorities and the 9th-item refusal at all 25x25 (position, offset) "
         "pairs are swept completely.",
         "Host build; callbacks always report success; items of the current frame at reset accepted either way.",
         "DESIGN.md 2/C08", "cbuild"),
 "C01": ("exploration",
         "bounded-exhaustive enumeration of valid TRXD messages (complete small-dimension product, each wide field swept over its complete range one at a time, walking-bit burst patterns) through gen_msg -> parse_msg",
         "3.5e6 (quick) / 7.6e7 (thorough) distinct messages: class x version x legacy x NOPE x all modulations x TSC sets x TSC x TN completely, attenuation/RSSI/C-I "
         "over their complete ranges, ToA256 over all 65 536 values, FN over a 6 312-value carry/boundary set (thorough: all 2 715 648), a walking 1 and 0 through "
         "every bit position and every soft-bit value at three positions; every field and every burst bit compared after the round trip; legacy-padded v0 "
         "compared with unpadded; all four translation tables checked entry by entry.",
         "Wide fields are swept one at a time at representative points of the small-dimension product (joint product not enumerated; C04 pins every octet independently).",
         "DESIGN.md 2/C01", "enum"),
 "C04": ("exploration",
         "the C01 enumeration compared octet by octet with an independent layout encoder/decoder, a mutation neighbourhood of every accepted datagram, and a differential run through trxcon's real trx_if.c",
         "Every enumerated message's octets must equal the reference layout's (vlib/ref/trxd.py); 7e5 (quick) / 9e6 (thorough) mutated datagrams (every header octet "
         "to each of 256 values, truncations, extensions) must be read per the layout whenever the parser accepts them; every v0 TRX->L1 datagram the toolkit "
         "produces is fed to trxcon's trx_data_rx_cb (5e5 / 6e6 vectors) and must yield the same fn/tn/rssi/toa/soft bits, and every burst request given to "
         "trxcon's trx_if_handle_phyif_burst_req must be parsed back by TxMsg to the same values.",
         "Reference layout transcribed from the property text; trxcon built with a stand-in for the system libosmocore fsm/socket layer; AB modulation code read with a TSC-set bit (see DESIGN 4 row 10).",
         "DESIGN.md 2/C04", "enum+cbuild"),
 "C15": ("fault_enumeration",
         "exhaustive enumeration of write histories x every truncation offset x every read call on the real DATADumpFile over BytesIO, list-of-records reference",
         "All histories of <=3 (quick) / <=4 (thorough) messages from an 11-entry menu (Tx/Rx, v0/v1, every modulation, NOPE), written with "
         "append_msg/append_all in four patterns; every byte offset of every file image is a crash point (4.9e5 / 5.4e6 distinct images); on each image "
         "parse_all(), parse_all(skip, count) over the complete skip x count product and parse_msg(i) for every index are compared field by field with "
         "the records wholly before the cut; no call may raise.",
         "Identical truncated images of different histories are read once (prefix stability is checked separately); deep in-body cuts use a thinned skip x count product in quick.",
         "DESIGN.md 2/C15", "enum"),
 "C16": ("exploration",
         "complete enumeration of a bounded definition grammar (envelopes of <=3/4 fields from a 29-atom menu, all bit-field compositions, nesting, sequences) x boundary-value assignments, generic reference packer",
         "4.0e4 (quick) / 5.1e5 (thorough) generated codec definitions, each with the complete product of per-field boundary values (capped, cap recorded), "
         "one-at-a-time illegal values, every truncation, a trailing octet, fixed-value flips and lying length fields; encode is compared octet by octet "
         "with an independent packer, decode(encode(v)) = v, encode(decode(b)) = b, consumed length = declared length, and only DecodeError/EncodeError may be raised; "
         "presence callbacks returning 10 bool and non-bool results x 4 field classes (encoder and decoder must read them the same way).",
         "Grammar bounded as stated in coverage.rule; hooks outside the statement (Envelope.check, definition-time errors) left out.",
         "DESIGN.md 2/C16", "enum"),
 "C17": ("exploration",
         "bounded-exhaustive enumeration of PDU field values for v0/v1/v2 in both directions, all 256 MTS octets, all batched sub-PDU combinations up to 3/4, and a differential run of the message codec's datagrams",
         "Every PDU class encodes to the reference layout (vlib/ref/trxd.py, trxd_v2.py) and decodes what it encodes; all modulation codes incl. reserved "
         "ones, NOPE, TRXN, batch/shadow and reserved bits, every wrong version nibble, every truncation; v2 PDUs with 0..3 (quick) / 0..4 (thorough) batched "
         "sub-PDUs completely (8e4 / 1e6 datagrams) and sweeps up to 8; 3.5e4 / 2.8e5 datagrams produced by data_msg (GSM/EDGE, legacy padding on Rx) "
         "must be accepted with identical field values.",
         "One open known finding (access-burst modulation with TSC set 1, MTS 0111): the given C13 and C17 texts disagree about it; see known_findings.json.",
         "DESIGN.md 2/C17", "enum"),
}

PENDING = {}

ALL = ["C%02d" % i for i in range(1, 21)]


def main():
    checks = []
    for pid in ALL:
        if pid not in CHECKS:
            continue
        cat, tech, text, note, ref, engine = CHECKS[pid]
        checks.append({
            "property_id": pid,
            "quick_cmd": "./check %s --tier quick" % pid,
            "thorough_cmd": "./check %s --tier thorough" % pid,
            "evidence_file": "/verif/evidence/%s.json" % pid,
            "replay_cmd_template": "./check %s --replay {path}" % pid,
            "engine": engine,
            "level_claimed": {"category": cat, "text": text, "design_ref": ref},
            "level_note": note,
            "technique": tech,
        })
    na = [{"property_id": pid, "reason": PENDING.get(pid, "check not built yet (work in progress, see DESIGN.md 4a); "
                                                     "the family applies, nothing is claimed until the check exists")}
          for pid in ALL if pid not in CHECKS]
    m = {
        "version": 1,
        "setup_cmd": "cd /verif && ./setup.sh",
        "hooks": {
            "guard": "OSMOCOM_BB_VERIF",
            "enable": "none needed: the checks replace sockets/time/threads/randomness from the harness side and "
                      "compile the C files unmodified; ./check exports OSMOCOM_BB_VERIF=1 for uniformity",
            "baseline_off_cmd": "cd /repo && env -u OSMOCOM_BB_VERIF /venv/bin/python -m pytest -ra -q -p no:cacheprovider "
                                "--timeout=900 --continue-on-collection-errors",
            "source_commits": [],
            "add_only": True,
        },
        "engines": [
            {"name": "runner", "path": "vlib/runner.py", "serves_properties": ALL,
             "kind_free_text": "tiers, seeds, evidence, known findings, replay confirmation in fresh interpreters"},
            {"name": "world", "path": "vlib/world.py", "serves_properties": ["C02", "C03", "C05", "C09", "C10", "C12", "C13", "C14", "C18"],
             "kind_free_text": "deterministic environment for the real Python toolkit: fake UDP fabric, virtual time, "
                               "fake threads/events/locks, choice-point randomness, real main loop driven by a fake select()"},
        ],
        "checks": checks,
        "not_applicable": na,
        "notes": "All checks are exhaustive enumerations (states, histories, schedules, crash points or bounded input "
                 "spaces) run on the real code of /repo's working tree; see DESIGN.md.",
    }
    path = os.path.join(HERE, "MANIFEST.json")
    with open(path, "w") as f:
        json.dump(m, f, indent=1)
        f.write("\n")
    try:
        import jsonschema
        schema = json.load(open("/root/.vp/MANIFEST.schema.json"))
        jsonschema.validate(m, schema)
        print("MANIFEST.json valid; %d checks, %d not_applicable" % (len(checks), len(na)))
    except ImportError:
        print("MANIFEST.json written (jsonschema not available for validation)")


if __name__ == "__main__":
    sys.exit(main())

#!/usr/bin/env python3
"""Confirms a seeded change delivered by an independent agent and runs the checks against it.

  tools/seedcheck.py <property> <name> <dir with patch.diff, demo.py[, notes.md]> [--checks C03,C12] [--keep-going]

1. scratch copy of /repo (never /repo itself); demo must PASS (exit 0) there,
2. patch applied: demo must FAIL (exit != 0), the repository's own suite must still pass
   (test_no_timing_error_accumulated is a real-time test outside the stable baseline and is ignored),
3. the quick checks run with VERIF_REPO=<scratch>; caught = exit 1 with a VIOLATION line,
4. /verif/seeded/<property>-<name>/ gets patch.diff, demo.py, notes.md and meta.json.
"""
import json
import os
import shutil
import subprocess
import sys
import time

VERIF = os.path.dirname(os.path.dirname(os.path.abspath(__file__)))
SCR = "/tmp/seedchk"


def sh(cmd, **kw):
    return subprocess.run(cmd, shell=True, capture_output=True, text=True, **kw)


def main():
    a = sys.argv[1:]
    prop, name, src = a[0], a[1], a[2]
    checks = [prop]
    if "--checks" in a:
        checks = a[a.index("--checks") + 1].split(",")
    scr = os.path.join(SCR, "%s-%s" % (prop, name), "repo")
    shutil.rmtree(os.path.dirname(scr), ignore_errors=True)
    os.makedirs(os.path.dirname(scr))
    sh("rsync -a --exclude .git --exclude __pycache__ /repo/ %s/" % scr)
    demo = os.path.join(src, "demo.py")
    meta = {"property": prop, "name": name, "source": "independent sub-agent given only the property text and a scratch worktree",
            "ran": []}
    r0 = sh("cd %s && timeout 600 /venv/bin/python -B %s" % (scr, demo))
    meta["demo_clean_rc"] = r0.returncode
    meta["ran"].append("demo on unmodified copy: rc=%d %s" % (r0.returncode, (r0.stdout.strip().splitlines() or [""])[-1][:200]))
    ap = sh("cd %s && patch -p1 < %s" % (scr, os.path.join(src, "patch.diff")))
    if ap.returncode != 0:
        print("patch does not apply:", ap.stdout, ap.stderr)
        return 2
    r1 = sh("cd %s && timeout 600 /venv/bin/python -B %s" % (scr, demo))
    meta["demo_patched_rc"] = r1.returncode
    meta["ran"].append("demo with patch: rc=%d %s" % (r1.returncode, (r1.stdout.strip().splitlines() or [""])[-1][:300]))
    ts = sh("cd %s && /venv/bin/python -m pytest -q -p no:cacheprovider --timeout=900 "
            "--deselect src/target/trx_toolkit/test_clck_gen.py::CLCKGen_Test::test_no_timing_error_accumulated 2>&1 | tail -1" % scr)
    meta["suite_with_patch"] = ts.stdout.strip()
    meta["ran"].append("repository suite with patch: " + ts.stdout.strip())
    ok = (r0.returncode == 0 and r1.returncode != 0 and "failed" not in ts.stdout and "error" not in ts.stdout.lower())
    meta["confirmed"] = ok
    res = {}
    for c in checks:
        t = time.time()
        r = sh("./check %s --tier quick" % c, cwd=VERIF, env=dict(os.environ, VERIF_REPO=scr), timeout=7200)
        caught = r.returncode == 1 and ("VIOLATION property=%s" % c) in r.stdout
        keys = [l.strip().split(": ")[0] for l in r.stdout.splitlines() if l.startswith("  %s:" % c)][:6]
        res[c] = {"caught": caught, "rc": r.returncode, "wall_s": round(time.time() - t), "keys": keys}
        if r.returncode not in (0, 1):
            res[c]["tail"] = (r.stdout + r.stderr)[-800:]
        meta["ran"].append("VERIF_REPO=<scratch with patch> ./check %s --tier quick -> rc=%d%s"
                           % (c, r.returncode, " VIOLATION " + ", ".join(keys[:3]) if caught else ""))
    meta["checks"] = res
    dst = os.path.join(VERIF, "seeded", "%s-%s" % (prop, name))
    os.makedirs(dst, exist_ok=True)
    shutil.copytree(src, dst, dirs_exist_ok=True, ignore=shutil.ignore_patterns("__pycache__", "*.o", "*.so", "build*", "a.out"))
    notes = os.path.join(src, "notes.md")
    if os.path.exists(notes):
        meta["needs_to_manifest"] = open(notes).read()[:1500]
    with open(os.path.join(dst, "meta.json"), "w") as f:
        json.dump(meta, f, indent=1)
        f.write("\n")
    shutil.rmtree(os.path.dirname(scr), ignore_errors=True)
    print(json.dumps({"confirmed": ok, "demo": [r0.returncode, r1.returncode], "suite": ts.stdout.strip(), "checks": res}, indent=1))
    return 0


if __name__ == "__main__":
    sys.exit(main())
